#!/venv/bin/python
"""Regenerates MANIFEST.json from the property modules' own metadata (run from /verif)."""
import importlib
import json
import os
import sys

HERE = os.path.dirname(os.path.dirname(os.path.abspath(__file__)))
sys.path.insert(0, HERE)
sys.path.insert(1, os.path.join(HERE, '.deps'))

props = [json.loads(l) for l in open(os.path.join(HERE, 'properties.jsonl'))]
checks, na = [], []
hook_commits = []
for p in props:
  pid = p['id']
  path = os.path.join(HERE, 'vf', 'props', pid.lower() + '.py')
  ready = open(os.path.join(HERE, 'vf', 'props', 'READY')).read().split()
  if not os.path.exists(path) or pid not in ready:
    na.append({'property_id': pid, 'reason': 'check not built yet (see DESIGN.md section 9); '
               'the technique applies and the property is planned'})
    continue
  # each module registers probe configurables at import: load it in its own interpreter
  import subprocess, types
  out = subprocess.check_output(
      [sys.executable, '-c',
       'import json, importlib; m = importlib.import_module("vf.props.%s"); '
       'print("@@" + json.dumps({k: getattr(m, k) for k in '
       '("LEVEL", "LEVEL_TEXT", "LEVEL_NOTE", "TECHNIQUE")}))' % pid.lower()],
      env=dict(os.environ, PYTHONPATH=HERE + os.pathsep + os.path.join(HERE, '.deps')),
      stderr=subprocess.DEVNULL).decode()
  mod = types.SimpleNamespace(**json.loads(out[out.index('@@') + 2:]))
  checks.append({
      'property_id': pid,
      'quick_cmd': f'./check {pid} quick',
      'thorough_cmd': f'./check {pid} thorough',
      'evidence_file': f'evidence/{pid}.json',
      'replay_cmd_template': f'./check {pid} --replay {{path}}',
      'engine': 'vf',
      'level_claimed': {'category': mod.LEVEL, 'text': mod.LEVEL_TEXT,
                        'design_ref': f'DESIGN.md section 4, {pid}'},
      'level_note': mod.LEVEL_NOTE,
      'technique': mod.TECHNIQUE,
  })
manifest = {
    'version': 1,
    'setup_cmd': './setup.sh',
    'hooks': {
        'guard': 'GIN_CONFIG_VERIF',
        'enable': 'no hooks are needed: checks import gin from /repo (or $VERIF_REPO) and reach '
                  'everything through public APIs, fork isolation and module attributes; the '
                  'guard variable is reserved and unused',
        'baseline_off_cmd': 'cd /repo && /venv/bin/python -m pytest -ra -q -p no:cacheprovider '
                            '--timeout=900 --continue-on-collection-errors',
        'source_commits': hook_commits,
        'add_only': True,
    },
    'engines': [{
        'name': 'vf',
        'path': 'vf/',
        'serves_properties': [c['property_id'] for c in checks],
        'kind_free_text': 'Hypothesis-driven generated-case search (sharded over 16 processes, '
                          'fork-per-case isolation), bounded exhaustive sweeps, harness-owned '
                          'thread schedules and atheris coverage-guided fuzzing, each against an '
                          'explicit reference model / differential / metamorphic oracle',
    }],
    'checks': checks,
    'not_applicable': na,
    'notes': 'All checks: exit 0 held / 1 VIOLATION line + replay file / 2 harness error. '
             'VERIF_SEED selects the Hypothesis seeds; VERIF_REPO (default /repo) selects the '
             'tree under test. known_findings.json lists fixed and open findings.',
}
with open(os.path.join(HERE, 'MANIFEST.json'), 'w') as f:
  json.dump(manifest, f, indent=1)
  f.write('\n')
try:
  import jsonschema
  jsonschema.validate(manifest, json.load(open('/root/.vp/MANIFEST.schema.json')))
  print('manifest valid;', len(checks), 'checks,', len(na), 'not_applicable')
except ImportError:
  print('manifest written (jsonschema not importable here);', len(checks), 'checks')
