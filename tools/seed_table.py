#!/usr/bin/env python3
"""Prints the markdown table of seeded changes for DESIGN.md section 8 from seeded/*/meta.json."""
import glob, json, os
strengthened = json.load(open('/verif/seeded/STRENGTHENED.json'))
rows = []
for m in sorted(glob.glob('/verif/seeded/*/meta.json')):
  name = os.path.basename(os.path.dirname(m))
  d = json.load(open(m)); v = d.get('verified', {})
  caught = ['%s (%s)' % (k, (x.get('kind') or '').replace('violation kind=', '').split(' found-by=')[0])
            for k, x in v.get('checks', {}).items() if x['exit'] == 1]
  note = strengthened.get(name, '')
  verdict = ', '.join(caught) or '**missed**'
  if not caught and v.get('confirmed') is False:
    verdict = 'does not manifest on the current tree'
  elif not caught and 'not claimed' in note:
    verdict = '**not caught** (not claimed, see note)'
  rows.append((name, d.get('title', '').replace('|', '/'), verdict, note))
print('| seed | change (independently written) | caught by (violation kind) | note |')
print('|---|---|---|---|')
for r in rows:
  print('| %s | %s | %s | %s |' % r)
