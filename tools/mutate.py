#!/usr/bin/env python3
"""tools/mutate.py <file-relative-to-repo> <old> <new> -- <check args...>
Copies /repo to a scratch dir, replaces exactly one occurrence of <old> by <new> in the file,
runs ./check with VERIF_REPO pointing at the copy, removes the copy. Prints the check's tail."""
import os, shutil, subprocess, sys, tempfile
args = sys.argv[1:]
i = args.index('--')
path, old, new = args[:i]
check = args[i + 1:]
old = old.encode().decode('unicode_escape'); new = new.encode().decode('unicode_escape')
d = tempfile.mkdtemp(prefix='mut-', dir='/tmp')
try:
  subprocess.check_call(['rsync', '-a', '--exclude', '.git', '/repo/', d + '/'])
  p = os.path.join(d, path)
  s = open(p).read()
  n = s.count(old)
  if n != 1:
    print(f'MUTATE: pattern occurs {n} times, need exactly 1'); sys.exit(3)
  open(p, 'w').write(s.replace(old, new))
  env = dict(os.environ, VERIF_REPO=d)
  if os.environ.get('MUT_BASELINE'):
    r = subprocess.run(['/verif/tools/baseline.sh', d], capture_output=True, text=True)
    print(r.stdout.strip().splitlines()[0] if r.stdout else r.stderr[-300:])
  r = subprocess.run(['/verif/check'] + check, env=env, capture_output=True, text=True, cwd='/verif')
  out = (r.stdout + r.stderr).strip().splitlines()
  print('\n'.join(l[:400] for l in out[-int(os.environ.get('MUT_TAIL', '6')):]))
  print('exit', r.returncode)
finally:
  shutil.rmtree(d, ignore_errors=True)
