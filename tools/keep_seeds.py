#!/usr/bin/env python3
"""Copies independently written seeded changes from /tmp/seed-CNN-out/m* into /verif/seeded/,
re-verifies each (patch applies, baseline 128/128, demo 0 pristine / non-zero patched) and records
which checks catch it.  Usage: tools/keep_seeds.py [CNN ...]
With SEED_INPLACE=1 the arguments are names of kept seeds (CNN-mK): nothing is copied, the kept
patch (e.g. one re-based onto a later /repo HEAD) is re-verified where it is."""
import glob, json, os, shutil, subprocess, sys
ids = sys.argv[1:] or ['C%02d' % i for i in range(1, 21)]
INPLACE = bool(os.environ.get('SEED_INPLACE'))
extra = {'C01': ['C10'], 'C06': ['C19', 'C03'], 'C03': ['C19', 'C16', 'C15'], 'C04': ['C18', 'C05', 'C01'], 'C16': ['C12'], 'C08': ['C06']}   # checks of other properties that also exercise the seed's clause
results = []
for pid in ids:
  if INPLACE:
    sources, pid = [os.path.join('/verif/seeded', pid)], pid.split('-')[0]
  else:
    sources = sorted(glob.glob(f'/tmp/seed-{pid}-out/' + os.environ.get('SEED_GLOB', 'm*')))
  for src in sources:
    name = os.path.basename(src) if INPLACE else f'{pid}-{os.path.basename(src)}'
    dst = os.path.join('/verif/seeded', name)
    os.makedirs(dst, exist_ok=True)
    prev_verified = {}
    if os.path.exists(os.path.join(dst, 'meta.json')):
      prev_verified = json.load(open(os.path.join(dst, 'meta.json'))).get('verified', {})
    if not INPLACE:
      for f in ('patch.diff', 'demo.py', 'meta.json'):
        shutil.copy(os.path.join(src, f), os.path.join(dst, f))
      for f in glob.glob(os.path.join(src, 'found_by_*.json')):
        shutil.copy(f, dst)
    checks = [pid] + extra.get(pid, [])
    out = subprocess.run(['python3', '/verif/tools/seed_eval.py', dst] + checks + (
        ['--no-baseline'] if os.environ.get('SEED_NO_BASELINE') else []),
                         capture_output=True, text=True).stdout.strip().splitlines()[-1]
    r = json.loads(out)
    meta = json.load(open(os.path.join(dst, 'meta.json')))
    ok = (r.get('patch_applies') and r.get('demo_pristine') == 0 and r.get('demo_patched') not in (0, None)
          and ('128/128' in (r.get('baseline') or '') or os.environ.get('SEED_NO_BASELINE')))
    meta['verified'] = {
        'what_was_run': 'tools/seed_eval.py: patch applied to a scratch copy of /repo; '
                        'tools/baseline.sh there; demo.py on a pristine and on the patched copy; '
                        './check <ID> quick with VERIF_REPO=<patched copy>',
        'patch_applies': r.get('patch_applies'),
        # a re-evaluation without the baseline run keeps the earlier recorded baseline result
        'baseline': r.get('baseline') or prev_verified.get('baseline'),
        'repo_head': subprocess.check_output(['git', '-C', '/repo', 'rev-parse', '--short', 'HEAD'],
                                             text=True).strip(),
        'demo_pristine_exit': r.get('demo_pristine'), 'demo_patched_exit': r.get('demo_patched'),
        'confirmed': bool(ok),
        'checks': {k[6:]: v for k, v in r.items() if k.startswith('check:')},
    }
    json.dump(meta, open(os.path.join(dst, 'meta.json'), 'w'), indent=1)
    caught = [k for k, v in meta['verified']['checks'].items() if v['exit'] == 1]
    results.append({'seed': name, 'confirmed': bool(ok), 'caught_by': caught,
                    'title': meta.get('title')})
    print(name, 'confirmed' if ok else 'NOT-CONFIRMED', 'caught by', caught, flush=True)
prev = []
p = '/verif/seeded/RESULTS.json'
if os.path.exists(p):
  prev = [x for x in json.load(open(p)) if x['seed'] not in {r['seed'] for r in results}]
json.dump(sorted(prev + results, key=lambda x: x['seed']), open(p, 'w'), indent=1)
