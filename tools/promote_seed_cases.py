#!/usr/bin/env python3
"""Promotes the shrunk failing cases found on seeded changes (seeded/*/found_by_<ID>.json) to
committed corner replays replays/<ID>/seeded_<seed>.json, provided they pass on /repo."""
import glob, json, os, subprocess
n = 0
for f in sorted(glob.glob('/verif/seeded/*/found_by_*.json')):
  seed = os.path.basename(os.path.dirname(f))
  cid = os.path.basename(f)[len('found_by_'):-5]
  d = json.load(open(f))
  dst = f'/verif/replays/{cid}/seeded_{seed}.json'
  if os.path.exists(dst):
    continue
  os.makedirs(os.path.dirname(dst), exist_ok=True)
  json.dump({'property': cid, 'expect': 'ok',
             'note': f'shrunk case on which the seeded change {seed} fails; passes on the unchanged tree',
             'case': d['case']}, open(dst, 'w'))
  r = subprocess.run(['/verif/check', cid, '--replay', dst], capture_output=True, text=True, cwd='/verif')
  if r.returncode != 0:
    os.remove(dst)
    print('NOT promoted (does not pass on /repo):', dst)
  else:
    n += 1
print('promoted', n)
