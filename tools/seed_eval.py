#!/usr/bin/env python3
"""tools/seed_eval.py <seed-dir> [check-id ...] [--tier quick|thorough] [--no-baseline]

Evaluates one seeded change (directory with patch.diff, demo.py, meta.json):
 1. applies patch.diff to a scratch copy of /repo,
 2. runs the baseline suite there (must stay 128/128) and the demo on pristine and patched trees,
 3. runs the named checks (default: the property in meta.json) with VERIF_REPO=<scratch>,
 4. removes the scratch copy and prints one JSON line with the results.
"""
import json, os, shutil, subprocess, sys, tempfile, time

args = [a for a in sys.argv[1:] if not a.startswith('--')]
tier = 'quick'
if '--tier' in sys.argv:
  tier = sys.argv[sys.argv.index('--tier') + 1]
  args.remove(tier)
seed = os.path.abspath(args[0])
meta = json.load(open(os.path.join(seed, 'meta.json')))
checks = args[1:] or [meta['property']]
d = tempfile.mkdtemp(prefix='seedeval-', dir='/tmp')
res = {'seed': seed, 'property': meta['property'], 'title': meta.get('title')}
try:
  subprocess.check_call(['rsync', '-a', '--exclude', '.git', '/repo/', d + '/'])
  def demo(tree):
    src = open(os.path.join(seed, 'demo.py')).read()
    # demos assert their own worktree path; point them at the tree being tested
    import re
    src = re.sub(r'/tmp/seed-C\d\d(?!-out)', tree, src)
    p = os.path.join(tree, '_demo.py')
    open(p, 'w').write(src)
    r = subprocess.run(['/venv/bin/python', p], cwd=tree, env=dict(os.environ, PYTHONPATH=tree),
                       capture_output=True, text=True, timeout=300)
    os.remove(p)
    return r.returncode
  pristine = tempfile.mkdtemp(prefix='seedeval-p-', dir='/tmp')
  subprocess.check_call(['rsync', '-a', '--exclude', '.git', '/repo/', pristine + '/'])
  res['demo_pristine'] = demo(pristine)
  shutil.rmtree(pristine, ignore_errors=True)
  a = subprocess.run(['git', 'apply', '--unsafe-paths', '--directory', d, os.path.join(seed, 'patch.diff')],
                     capture_output=True, text=True, cwd='/')
  if a.returncode != 0:
    a = subprocess.run(['patch', '-p1', '-d', d, '-i', os.path.join(seed, 'patch.diff')],
                       capture_output=True, text=True)
  res['patch_applies'] = a.returncode == 0
  if not res['patch_applies']:
    res['patch_error'] = (a.stderr or a.stdout)[-300:]
  else:
    res['demo_patched'] = demo(d)
    if '--no-baseline' not in sys.argv:
      b = subprocess.run(['/verif/tools/baseline.sh', d], capture_output=True, text=True)
      res['baseline'] = b.stdout.strip().splitlines()[0] if b.stdout else b.stderr[-200:]
    for c in checks:
      t0 = time.time()
      r = subprocess.run(['/verif/check', c, tier], env=dict(os.environ, VERIF_REPO=d),
                         capture_output=True, text=True, cwd='/verif')
      lines = (r.stdout + r.stderr).splitlines()
      kind = next((l for l in lines if l.startswith('violation kind=')), '')
      res['check:' + c] = {'exit': r.returncode, 'wall': round(time.time() - t0, 1),
                           'kind': kind[:160]}
      vio = next((l for l in lines if l.startswith('VIOLATION ')), '')
      if 'replay=out/' in vio:
        # keep the shrunk failing case next to the seed (it passes on /repo and can be promoted
        # to a committed corner replay)
        path = os.path.join('/verif', vio.split('replay=')[1].strip())
        if os.path.exists(path):
          shutil.copy(path, os.path.join(seed, f'found_by_{c}.json'))
finally:
  shutil.rmtree(d, ignore_errors=True)
print(json.dumps(res))
