#!/usr/bin/env python3
"""Validates MANIFEST.json and evidence/*.json against the schemas (uses the tooling venv)."""
import glob, json, sys
import jsonschema
ok = True
m = json.load(open('MANIFEST.json'))
jsonschema.validate(m, json.load(open('/root/.vp/MANIFEST.schema.json')))
es = json.load(open('/root/.vp/EVIDENCE.schema.json'))
ready = open('vf/props/READY').read().split()
for p in sorted(glob.glob('evidence/*.json')):
  if p.split('/')[-1][:-5] not in ready:
    continue
  try:
    jsonschema.validate(json.load(open(p)), es)
  except Exception as e:
    ok = False
    print('INVALID', p, str(e)[:300])
print('valid' if ok else 'INVALID')
sys.exit(0 if ok else 1)
