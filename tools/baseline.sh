#!/bin/bash
# Runs the repository's pinned baseline and compares with BASELINE.json's stable_pass list.
# usage: tools/baseline.sh [repo_dir]
REPO=${1:-/repo}
OUT=$(mktemp /tmp/baseline.XXXXXX.xml)
(cd "$REPO" && /venv/bin/python -m pytest -q -p no:cacheprovider --timeout=900 --continue-on-collection-errors --junitxml="$OUT" >/dev/null 2>&1)
/venv/bin/python - "$OUT" <<'PY'
import json, sys, xml.etree.ElementTree as ET
base = set(json.load(open('/root/.vp/BASELINE.json'))['stable_pass'])
passed = set()
for tc in ET.parse(sys.argv[1]).getroot().iter('testcase'):
    if not any(c.tag in ('failure', 'error', 'skipped') for c in tc):
        passed.add(f"{tc.get('classname')}::{tc.get('name')}")
missing = sorted(base - passed)
print(f'baseline: {len(base & passed)}/{len(base)} stable tests pass')
for m in missing: print('  MISSING', m)
sys.exit(1 if missing else 0)
PY
rc=$?
rm -f "$OUT"
exit $rc
